// ---------------------------------------------------------------------------------------------
// TRUSTED prelude: vec_model.rs — Vec/slice methods without a vstd specification.
// ---------------------------------------------------------------------------------------------

/// R-method-map: `v.reverse()` => `vx_vec_reverse(&mut v)` (slice::reverse through DerefMut)
#[verifier::external_body]
pub fn vx_vec_reverse<T>(v: &mut Vec<T>)
    ensures final(v)@ == old(v)@.reverse()
{ v.reverse() }

/// R-method-map: `v.retain(f)` => `vx_vec_retain(&mut v, f)`: keeps, in order, exactly the elements on
/// which the predicate returned true (operational contract, see iter_model.rs): `retain_keep(old, new)` is
/// the vector of the predicate's answers.
pub uninterp spec fn retain_keep<T>(before: Seq<T>, after: Seq<T>) -> Seq<bool>;

#[verifier::external_body]
pub fn vx_vec_retain<T, F: Fn(&T) -> bool>(v: &mut Vec<T>, f: F)
    requires forall|i: int| 0 <= i < old(v)@.len() ==> call_requires(f, (&#[trigger] old(v)@[i],))
    ensures
        retain_keep(old(v)@, final(v)@).len() == old(v)@.len(),
        forall|i: int| 0 <= i < old(v)@.len() ==> call_ensures(f, (&old(v)@[i],), #[trigger] retain_keep(old(v)@, final(v)@)[i]),
        final(v)@ == filter_by(old(v)@, retain_keep(old(v)@, final(v)@)),
{ v.retain(f) }

/// the subsequence of s at the positions where keep is true
pub open spec fn filter_by<T>(s: Seq<T>, keep: Seq<bool>) -> Seq<T>
    decreases s.len()
{
    if s.len() == 0 || keep.len() != s.len() { Seq::empty() }
    else if keep.last() { filter_by(s.drop_last(), keep.drop_last()).push(s.last()) }
    else { filter_by(s.drop_last(), keep.drop_last()) }
}

/// `v.into_iter().peekable()` (R-chain) as the sequence of elements not yet yielded
#[verifier::external_body]
#[verifier::reject_recursive_types(T)]
pub struct VxVecPeek<T> { it: core::iter::Peekable<std::vec::IntoIter<T>> }
impl<T> VxVecPeek<T> {
    pub uninterp spec fn view(&self) -> Seq<T>;
    #[verifier::external_body]
    pub fn peek(&mut self) -> (r: Option<&T>)
        ensures
            final(self)@ == old(self)@,
            old(self)@.len() == 0 ==> r is None,
            old(self)@.len() > 0 ==> r is Some && *r->Some_0 == old(self)@[0],
    { unimplemented!() }
    #[verifier::external_body]
    pub fn next(&mut self) -> (r: Option<T>)
        ensures
            old(self)@.len() == 0 ==> r is None && final(self)@ == old(self)@,
            old(self)@.len() > 0 ==> r == Some(old(self)@[0]) && final(self)@ == old(self)@.skip(1),
    { unimplemented!() }
}
#[verifier::external_body]
pub fn vx_vec_peekable<T>(v: Vec<T>) -> (r: VxVecPeek<T>)
    ensures r@ == v@
{ unimplemented!() }

/// R-method-map: `v.swap(a, b)` => `vx_vec_swap(&mut v, a, b)` (slice::swap through DerefMut; panics out of bounds)
#[verifier::external_body]
pub fn vx_vec_swap<T>(v: &mut Vec<T>, a: usize, b: usize)
    requires a < old(v)@.len(), b < old(v)@.len()
    ensures final(v)@ == old(v)@.update(a as int, old(v)@[b as int]).update(b as int, old(v)@[a as int])
{ v.swap(a, b) }
