// ---------------------------------------------------------------------------------------------
// TRUSTED prelude: ord_model.rs - `Ord::cmp` of the three std / dependency / derived types the lossless relation
// ordering is built from, as spec functions (R-method-map target `vx_cmp`).
//   String            : lexicographic by character (UTF-8 byte order == code point order)
//   VersionConstraint : #[derive(PartialOrd, Ord)] on a field-less enum compares some rank of the variants
//   debversion::Version : the dependency's Debian version order, vcmp (see version_model.rs), ASSUMED a total preorder
// ---------------------------------------------------------------------------------------------
pub open spec fn ord_flip(o: core::cmp::Ordering) -> core::cmp::Ordering {
    match o { core::cmp::Ordering::Less => core::cmp::Ordering::Greater, core::cmp::Ordering::Equal => core::cmp::Ordering::Equal, core::cmp::Ordering::Greater => core::cmp::Ordering::Less }
}
pub open spec fn int_ord(c: int) -> core::cmp::Ordering {
    if c < 0 { core::cmp::Ordering::Less } else if c == 0 { core::cmp::Ordering::Equal } else { core::cmp::Ordering::Greater }
}
pub open spec fn char_ord(a: char, b: char) -> core::cmp::Ordering { int_ord(a as int - b as int) }
/// lexicographic order of two sequences under an element comparison; a proper prefix sorts first
pub open spec fn lex_seq<T>(c: spec_fn(T, T) -> core::cmp::Ordering, s: Seq<T>, t: Seq<T>) -> core::cmp::Ordering
    decreases s.len()
{
    if s.len() == 0 { if t.len() == 0 { core::cmp::Ordering::Equal } else { core::cmp::Ordering::Less } }
    else if t.len() == 0 { core::cmp::Ordering::Greater }
    else if c(s[0], t[0]) != core::cmp::Ordering::Equal { c(s[0], t[0]) }
    else { lex_seq(c, s.skip(1), t.skip(1)) }
}
pub open spec fn str_ord(a: Seq<char>, b: Seq<char>) -> core::cmp::Ordering { lex_seq(|x: char, y: char| char_ord(x, y), a, b) }

pub open spec fn ole<T>(c: spec_fn(T, T) -> core::cmp::Ordering, a: T, b: T) -> bool { c(a, b) != core::cmp::Ordering::Greater }
/// a total preorder given as a three-way comparison: swapping the arguments flips the answer, and <= is transitive
pub open spec fn total_preorder<T>(c: spec_fn(T, T) -> core::cmp::Ordering) -> bool {
    &&& forall|a: T, b: T| #[trigger] c(b, a) == ord_flip(c(a, b))
    &&& forall|a: T, b: T, d: T| #[trigger] ole(c, a, b) && #[trigger] ole(c, b, d) ==> ole(c, a, d)
}

pub trait VxOrd {
    spec fn ord_spec(&self, other: &Self) -> core::cmp::Ordering;
    fn vx_cmp_m(&self, other: &Self) -> (r: core::cmp::Ordering)
        ensures r == self.ord_spec(other);
}
/// R-method-map target of `a.cmp(&b)`
pub fn vx_cmp<T: VxOrd>(a: &T, b: &T) -> (r: core::cmp::Ordering)
    ensures r == a.ord_spec(b)
{
    a.vx_cmp_m(b)
}
impl VxOrd for String {
    open spec fn ord_spec(&self, other: &Self) -> core::cmp::Ordering { str_ord(self@, other@) }
    #[verifier::external_body]
    fn vx_cmp_m(&self, other: &Self) -> (r: core::cmp::Ordering) { unimplemented!() }
}
impl VxOrd for debversion::Version {
    open spec fn ord_spec(&self, other: &Self) -> core::cmp::Ordering { int_ord(debversion::vcmp(self, other)) }
    #[verifier::external_body]
    fn vx_cmp_m(&self, other: &Self) -> (r: core::cmp::Ordering) { unimplemented!() }
}
/// ASSUMED: the Debian version order is a total preorder
#[verifier::external_body]
pub proof fn axiom_vcmp_antisym(a: &debversion::Version, b: &debversion::Version)
    ensures int_ord(debversion::vcmp(b, a)) == ord_flip(int_ord(debversion::vcmp(a, b)))
{}
#[verifier::external_body]
pub proof fn axiom_vcmp_trans(a: &debversion::Version, b: &debversion::Version, c: &debversion::Version)
    requires debversion::vcmp(a, b) <= 0, debversion::vcmp(b, c) <= 0
    ensures debversion::vcmp(a, c) <= 0
{}
/// `Ordering == Ordering` (and `!=`, which Verus reads as its negation)
pub assume_specification [<core::cmp::Ordering as PartialEq>::eq] (a: &core::cmp::Ordering, b: &core::cmp::Ordering) -> (r: bool)
    ensures r == (*a == *b);
