// ---------------------------------------------------------------------------------------------
// TRUSTED prelude: version_model.rs — `debversion::Version` with an abstract Debian ordering.
// "Debian version ordering" *is* the dependency's Ord/PartialOrd/PartialEq (assumed): vcmp(a, b)
// is negative, zero or positive as a sorts before, equal to or after b.
// ---------------------------------------------------------------------------------------------
pub mod debversion {
    use super::*;

    /// the dependency's public fields (debversion 0.4: epoch, upstream_version, debian_revision); the
    /// ordering is NOT structural on them ("1.0" == "0:1.0" == "1.0-0"), it is the abstract vcmp below
    pub struct Version {
        pub epoch: Option<u32>,
        pub upstream_version: String,
        pub debian_revision: Option<String>,
    }

    pub uninterp spec fn vcmp(a: &Version, b: &Version) -> int;

    pub open spec fn ord_of(c: int) -> core::cmp::Ordering {
        if c < 0 { core::cmp::Ordering::Less } else if c == 0 { core::cmp::Ordering::Equal } else { core::cmp::Ordering::Greater }
    }

    impl vstd::std_specs::cmp::PartialEqSpecImpl for Version {
        open spec fn obeys_eq_spec() -> bool { true }
        open spec fn eq_spec(&self, other: &Self) -> bool { vcmp(self, other) == 0 }
    }
    impl PartialEq for Version {
        #[verifier::external_body]
        fn eq(&self, other: &Self) -> (r: bool) { unimplemented!() }
    }
    impl vstd::std_specs::cmp::PartialOrdSpecImpl for Version {
        open spec fn obeys_partial_cmp_spec() -> bool { true }
        open spec fn partial_cmp_spec(&self, other: &Self) -> Option<core::cmp::Ordering> { Some(ord_of(vcmp(self, other))) }
    }
    impl PartialOrd for Version {
        #[verifier::external_body]
        fn partial_cmp(&self, other: &Self) -> (r: Option<core::cmp::Ordering>) { unimplemented!() }
    }
}

/// std::borrow::Cow restricted to what the lookup code uses (constructors, as_ref, deref)
pub enum Cow<'a, T: 'a> {
    Borrowed(&'a T),
    Owned(T),
}

impl<'a, T> Cow<'a, T> {
    pub open spec fn val(&self) -> &T {
        match self { Cow::Borrowed(r) => *r, Cow::Owned(t) => t }
    }
    pub fn as_ref(&self) -> (r: &T)
        ensures r == self.val()
    {
        match self { Cow::Borrowed(r) => *r, Cow::Owned(t) => t }
    }
}

impl<'a, T> core::ops::Deref for Cow<'a, T> {
    type Target = T;
    fn deref(&self) -> (r: &T)
        ensures r == self.val()
    {
        self.as_ref()
    }
}

/// `&str == String` (impl PartialEq<String> for &str): equality of contents
pub assume_specification<'a> [<&'a str as PartialEq<String>>::eq] (a: &&'a str, b: &String) -> (r: bool)
    ensures r == (a@ == b@);

/// stand-in for debversion::ParseError
#[derive(Debug)]
pub struct VxVersionParseError;
impl VxDisplay for VxVersionParseError {
    uninterp spec fn display_spec(&self) -> Seq<char>;
}
/// TRUSTED: `str::parse::<debversion::Version>` as an abstract partial function of the text
pub uninterp spec fn version_parse_spec(s: Seq<char>) -> Option<debversion::Version>;
impl VxFromStr for debversion::Version {
    type VxErr = VxVersionParseError;
    open spec fn parse_rel(s: Seq<char>, v: debversion::Version) -> bool { version_parse_spec(s) == Some(v) }
    open spec fn parse_err(s: Seq<char>) -> bool { version_parse_spec(s) is None }
    #[verifier::external_body]
    fn vx_from_str(s: &str) -> (r: Result<debversion::Version, VxVersionParseError>) { unimplemented!() }
}

/// TRUSTED: `Display for debversion::Version` writes *some* function of the value
pub uninterp spec fn version_text(v: debversion::Version) -> Seq<char>;
impl VxDisplay for debversion::Version {
    open spec fn display_spec(&self) -> Seq<char> { version_text(*self) }
}
