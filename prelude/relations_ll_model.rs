// ---------------------------------------------------------------------------------------------
// TRUSTED prelude: relations_ll_model.rs — the lossless relation tree accessors used by the
// satisfaction evaluator, as abstract inputs (their correctness is property C10, not claimed).
// ---------------------------------------------------------------------------------------------
use debversion::Version;
/// abstract view of the lossless tree accessors used by the evaluator (C10 is not claimed: the
/// accessor results are inputs here)
pub mod ll_model {
    use super::*;
    #[verifier::external_body]
    pub struct Relation { _p: () }
    impl Relation {
        pub uninterp spec fn name_spec(&self) -> Seq<char>;
        pub uninterp spec fn version_spec(&self) -> Option<(VersionConstraint, Version)>;
        #[verifier::external_body]
        pub fn name(&self) -> (r: String) ensures r@ == self.name_spec() { unimplemented!() }
        #[verifier::external_body]
        pub fn version(&self) -> (r: Option<(VersionConstraint, Version)>) ensures r == self.version_spec() { unimplemented!() }
    }
    #[verifier::external_body]
    pub struct Entry { _p: () }
    impl Entry {
        pub uninterp spec fn rels(&self) -> Seq<Relation>;
        #[verifier::external_body]
        pub fn relations(&self) -> (r: VxIter<Relation>) ensures r@ == self.rels() { unimplemented!() }
    }
    #[verifier::external_body]
    pub struct Relations { _p: () }
    impl Relations {
        pub uninterp spec fn ents(&self) -> Seq<Entry>;
        #[verifier::external_body]
        pub fn entries(&self) -> (r: VxIter<Entry>) ensures r@ == self.ents() { unimplemented!() }
    }
}

