// ---------------------------------------------------------------------------------------------
// TRUSTED prelude: chars_model.rs — `Peekable<Chars>` as the sequence of chars not yet consumed.
// R-chain: `s.chars().peekable()` => `vx_peekable_chars(s)`; R-type-map: Peekable<Chars<'a>> => VxPeekChars<'a>.
// ---------------------------------------------------------------------------------------------
#[verifier::external_body]
pub struct VxPeekChars<'a> { it: std::iter::Peekable<std::str::Chars<'a>> }

impl<'a> VxPeekChars<'a> {
    /// chars not yet consumed
    pub uninterp spec fn view(&self) -> Seq<char>;

    #[verifier::external_body]
    pub fn peek(&mut self) -> (r: Option<&char>)
        ensures
            final(self)@ == old(self)@,
            old(self)@.len() == 0 ==> r is None,
            old(self)@.len() > 0 ==> r is Some && *r->Some_0 == old(self)@[0],
    { unimplemented!() }

    /// `chars().peekable()` is already this model
    pub fn peekable(self) -> (r: Self)
        ensures r@ == self@
    { self }

    #[verifier::external_body]
    pub fn next(&mut self) -> (r: Option<char>)
        ensures
            old(self)@.len() == 0 ==> r is None && final(self)@ == old(self)@,
            old(self)@.len() > 0 ==> r == Some(old(self)@[0]) && final(self)@ == old(self)@.skip(1),
    { unimplemented!() }
}

#[verifier::external_body]
pub fn vx_peekable_chars<'a>(s: &'a str) -> (r: VxPeekChars<'a>)
    ensures r@ == s@
{ VxPeekChars { it: s.chars().peekable() } }

pub assume_specification [char::is_ascii_alphanumeric] (c: &char) -> (r: bool)
    ensures r == (('0' <= *c && *c <= '9') || ('a' <= *c && *c <= 'z') || ('A' <= *c && *c <= 'Z'));

/// `str::to_owned` (R-method-map in units where every receiver is a str)
#[verifier::external_body]
pub fn vx_str_to_owned(s: &str) -> (r: String)
    ensures r@ == s@
{ s.to_owned() }

/// `char::to_string`
#[verifier::external_body]
pub fn vx_char_to_string(c: char) -> (r: String)
    ensures r@ == seq![c]
{ c.to_string() }

/// error-path only: `errors.join("\n")` — the text of error messages is not modelled
#[verifier::external_body]
pub fn vx_opaque_join<T>(v: &T, sep: &str) -> (r: String)
{ unimplemented!() }
