// ---------------------------------------------------------------------------------------------
// TRUSTED prelude: streq_model.rs — mixed String / &str comparisons (std: compare contents).
// ---------------------------------------------------------------------------------------------
pub assume_specification<'a> [<String as PartialEq<&'a str>>::eq] (a: &String, b: &&str) -> (r: bool)
    ensures r == (a@ == b@);
pub assume_specification<'a> [<String as PartialEq<&'a str>>::ne] (a: &String, b: &&str) -> (r: bool)
    ensures r == (a@ != b@);
