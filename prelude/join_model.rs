// ---------------------------------------------------------------------------------------------
// TRUSTED prelude: join_model.rs — `[String]::join(sep)` as a defined function of the pieces.
// `join_seqs` is defined (std documentation of slice::join: the pieces with `sep` between each two);
// trusted: that the real `collect::<Vec<_>>().join(sep)` computes it (R-chain).
// ---------------------------------------------------------------------------------------------
pub open spec fn join_seqs(ps: Seq<Seq<char>>, sep: Seq<char>) -> Seq<char>
    decreases ps.len()
{
    if ps.len() == 0 { Seq::empty() }
    else if ps.len() == 1 { ps[0] }
    else { join_seqs(ps.drop_last(), sep) + sep + ps.last() }
}
pub open spec fn strs_view(v: Seq<String>) -> Seq<Seq<char>> { v.map_values(|s: String| s@) }

/// R-chain: `it.collect::<Vec<_>>().join("\n")`
#[verifier::external_body]
pub fn vx_iter_join_nl(it: VxIter<String>) -> (r: String)
    ensures r@ == join_seqs(strs_view(it@), seq!['\n'])
{ unimplemented!() }

/// R-method-map: `v.join(sep)` on a Vec<String>
#[verifier::external_body]
pub fn vx_vec_join(v: &Vec<String>, sep: &str) -> (r: String)
    ensures r@ == join_seqs(strs_view(v@), sep@)
{ unimplemented!() }

// ---- verified lemma (nothing trusted below) ----
/// join of a non-empty list with one more piece in front
pub proof fn lemma_join_front(a: Seq<char>, r: Seq<Seq<char>>, sep: Seq<char>)
    requires r.len() >= 1
    ensures join_seqs(seq![a] + r, sep) == a + sep + join_seqs(r, sep)
    decreases r.len()
{
    let x = seq![a] + r;
    if r.len() == 1 {
        assert(x.drop_last() =~= seq![a]);
        assert(x.last() == r[0]);
        assert(join_seqs(x.drop_last(), sep) == a);
    } else {
        lemma_join_front(a, r.drop_last(), sep);
        assert(x.drop_last() =~= seq![a] + r.drop_last());
        assert(x.last() == r.last());
        assert(join_seqs(x, sep) =~= a + sep + join_seqs(r, sep));
    }
}

/// `v.concat()` on a Vec<String>
#[verifier::external_body]
pub fn vx_vec_concat(v: &Vec<String>) -> (r: String)
    ensures r@ == join_seqs(strs_view(v@), Seq::<char>::empty())
{ unimplemented!() }
