// ---------------------------------------------------------------------------------------------
// TRUSTED prelude: chrono_model.rs — chrono::NaiveDate restricted to `format(fmt).to_string()` and
// `parse_from_str(s, fmt)`, as abstract functions of (date, format string). The format string is part
// of the contract, so a setter that writes with another pattern than the documented one fails.
// ---------------------------------------------------------------------------------------------
pub mod chrono {
    use super::*;
    #[verifier::external_body]
    pub struct NaiveDate { _p: () }
    pub struct ParseError;
    #[verifier::external_body]
    pub struct DelayedFormat { _p: () }

    /// text of a date under a strftime pattern
    pub uninterp spec fn date_text(d: NaiveDate, fmt: Seq<char>) -> Seq<char>;
    /// reading a date under a strftime pattern
    pub uninterp spec fn date_parse(s: Seq<char>, fmt: Seq<char>) -> Option<NaiveDate>;

    /// chrono round trip for the ISO calendar-date pattern
    #[verifier::external_body]
    pub proof fn axiom_date_roundtrip(d: NaiveDate)
        ensures date_parse(date_text(d, "%Y-%m-%d"@), "%Y-%m-%d"@) == Some(d)
    {
    }

    impl DelayedFormat {
        pub uninterp spec fn view(&self) -> Seq<char>;
    }
    impl VxDisplay for DelayedFormat {
        open spec fn display_spec(&self) -> Seq<char> { self@ }
    }
    impl NaiveDate {
        #[verifier::external_body]
        pub fn format(&self, fmt: &str) -> (r: DelayedFormat)
            ensures r@ == date_text(*self, fmt@)
        { unimplemented!() }
        #[verifier::external_body]
        pub fn parse_from_str(s: &str, fmt: &str) -> (r: Result<NaiveDate, ParseError>)
            ensures match date_parse(s@, fmt@) { Some(d) => r is Ok && r->Ok_0 == d, None => r is Err }
        { unimplemented!() }
    }
}
