// ---------------------------------------------------------------------------------------------
// TRUSTED prelude: fmt_model.rs — `std::fmt::Formatter` as an append-only character sequence.
// R-fmt rewrites `write!(f, "a{}b", x)` into `f.write_str("a")?; vx_display(&x, f)?; f.write_str("b")`.
// ---------------------------------------------------------------------------------------------
pub mod fmtm {
    use super::*;
    #[verifier::external_body]
    pub struct Formatter<'a> { f: &'a mut core::fmt::Formatter<'a> }
    pub struct Error;
    pub type Result = core::result::Result<(), Error>;

    impl<'a> Formatter<'a> {
        /// everything written so far
        pub uninterp spec fn view(&self) -> Seq<char>;

        #[verifier::external_body]
        pub fn write_str(&mut self, s: &str) -> (r: Result)
            ensures r is Ok ==> final(self)@ == old(self)@ + s@,
        { unimplemented!() }
    }
}

/// what `Display::fmt` writes for a value (`{}`); `x.to_string()` returns exactly this
pub trait VxDisplay {
    spec fn display_spec(&self) -> Seq<char>;
}

/// R-fmt: one `{}` placeholder
#[verifier::external_body]
pub fn vx_display<T: VxDisplay>(x: &T, f: &mut fmtm::Formatter) -> (r: fmtm::Result)
    ensures r is Ok ==> final(f)@ == old(f)@ + x.display_spec(),
{ unimplemented!() }

impl VxDisplay for String {
    open spec fn display_spec(&self) -> Seq<char> { self@ }
}
impl VxDisplay for &str {
    open spec fn display_spec(&self) -> Seq<char> { self@ }
}
impl VxDisplay for char {
    open spec fn display_spec(&self) -> Seq<char> { seq![*self] }
}

/// R-method-map: `x.to_string()` => `vx_to_string(&x)` (ToString through Display)
#[verifier::external_body]
pub fn vx_to_string<T: VxDisplay>(x: &T) -> (r: String)
    ensures r@ == x.display_spec()
{ unimplemented!() }
impl<T: VxDisplay> VxDisplay for &T {
    open spec fn display_spec(&self) -> Seq<char> { (**self).display_spec() }
}

/// R-chain: `opt.map(|s| s.to_string())`
#[verifier::external_body]
pub fn vx_opt_to_string<T: VxDisplay>(o: Option<T>) -> (r: Option<String>)
    ensures match o { Some(x) => r is Some && r->Some_0@ == x.display_spec(), None => r is None }
{ unimplemented!() }
