// ---------------------------------------------------------------------------------------------
// TRUSTED prelude: typed_model.rs (unit typed20, C20) - the derived per-paragraph conversions of the lossy typed
// documents as opaque functions: a converted value remembers the paragraph it was read from (`origin`). Whether a
// paragraph converts at all (mandatory fields, field syntax) is left open: C16's stand-in covers the conversions.
// ---------------------------------------------------------------------------------------------
pub type FieldList = Seq<(Seq<char>, Seq<char>)>;

#[verifier::external_body]
pub struct Source { _p: () }
#[verifier::external_body]
pub struct Binary { _p: () }
impl Source {
    pub uninterp spec fn origin(&self) -> FieldList;
    /// derive(FromDeb822) for lossy::Source
    #[verifier::external_body]
    pub fn from_paragraph(p: &deb822_lossless::Paragraph) -> (r: Result<Source, String>)
        ensures r is Ok ==> r->Ok_0.origin() == p@
    { unimplemented!() }
}
impl Binary {
    pub uninterp spec fn origin(&self) -> FieldList;
    /// derive(FromDeb822) for lossy::Binary
    #[verifier::external_body]
    pub fn from_paragraph(p: &deb822_lossless::Paragraph) -> (r: Result<Binary, String>)
        ensures r is Ok ==> r->Ok_0.origin() == p@
    { unimplemented!() }
}

#[verifier::external_body]
pub struct Header { _p: () }
#[verifier::external_body]
pub struct FilesParagraph { _p: () }
#[verifier::external_body]
pub struct LicenseParagraph { _p: () }
impl Header {
    pub uninterp spec fn origin(&self) -> FieldList;
    /// derive(FromDeb822) for debian_copyright::lossy::Header
    #[verifier::external_body]
    pub fn from_paragraph(p: &deb822_lossless::Paragraph) -> (r: Result<Header, String>)
        ensures r is Ok ==> r->Ok_0.origin() == p@
    { unimplemented!() }
}
impl FilesParagraph {
    pub uninterp spec fn origin(&self) -> FieldList;
    #[verifier::external_body]
    pub fn from_paragraph(p: &deb822_lossless::Paragraph) -> (r: Result<FilesParagraph, String>)
        ensures r is Ok ==> r->Ok_0.origin() == p@
    { unimplemented!() }
}
impl LicenseParagraph {
    pub uninterp spec fn origin(&self) -> FieldList;
    #[verifier::external_body]
    pub fn from_paragraph(p: &deb822_lossless::Paragraph) -> (r: Result<LicenseParagraph, String>)
        ensures r is Ok ==> r->Ok_0.origin() == p@
    { unimplemented!() }
}

/// R-chain: `s.parse().map_err(|e| format!("parse error: {}", e))` with target type deb822_lossless::Deb822
pub fn vx_parse_deb822(s: &str) -> (r: Result<deb822_lossless::Deb822, String>)
    ensures match r { Ok(d) => lossless_view(s@) == Some(d@), Err(_) => lossless_view(s@) is None }
{
    match deb822_lossless::Deb822::from_str(s) { Ok(d) => Ok(d), Err(_) => Err(vx_opaque_string()) }
}
/// R-chain: `opt.ok_or_else(|| "..".to_string())`
pub fn vx_ok_or_opaque<T>(o: Option<T>) -> (r: Result<T, String>)
    ensures match o { Some(v) => r == Ok::<T, String>(v), None => r is Err }
{
    match o { Some(v) => Ok(v), None => Err(vx_opaque_string()) }
}
