// ---------------------------------------------------------------------------------------------
// TRUSTED prelude: strops_model.rs — str methods taking a Pattern (vstd has no specs for them:
// `Pattern` cannot be named in an assume_specification). R-method-map sends `s.m(p)` to `vx_m(s, p)`.
// Contracts are first-order statements over `Seq<char>` taken from the std documentation.
// ---------------------------------------------------------------------------------------------

/// the patterns used by the repository: a char or a string literal
pub trait VxPattern {
    spec fn pat(&self) -> Seq<char>;
}
impl VxPattern for char {
    open spec fn pat(&self) -> Seq<char> { seq![*self] }
}
impl VxPattern for &str {
    open spec fn pat(&self) -> Seq<char> { self@ }
}

pub open spec fn is_prefix(p: Seq<char>, s: Seq<char>) -> bool {
    p.len() <= s.len() && s.take(p.len() as int) == p
}

/// first index at which p occurs in s, or -1
pub open spec fn find_sub(s: Seq<char>, p: Seq<char>) -> int
    decreases s.len()
{
    if is_prefix(p, s) { 0 }
    else if s.len() == 0 { -1 }
    else { let r = find_sub(s.skip(1), p); if r < 0 { -1 } else { r + 1 } }
}

/// str::strip_prefix: "Returns a string slice with the prefix removed", None if it does not start with it
#[verifier::external_body]
pub fn vx_strip_prefix<'a, P: VxPattern>(s: &'a str, p: P) -> (r: Option<&'a str>)
    ensures
        match r {
            Some(rest) => is_prefix(p.pat(), s@) && rest@ == s@.skip(p.pat().len() as int),
            None => !is_prefix(p.pat(), s@),
        }
{ unimplemented!() }

/// str::starts_with
#[verifier::external_body]
pub fn vx_starts_with<P: VxPattern>(s: &str, p: P) -> (r: bool)
    ensures r == is_prefix(p.pat(), s@)
{ unimplemented!() }

/// str::contains
#[verifier::external_body]
pub fn vx_contains<P: VxPattern>(s: &str, p: P) -> (r: bool)
    ensures r == (find_sub(s@, p.pat()) >= 0)
{ unimplemented!() }

/// str::split_once: "Splits the string on the first occurrence of the specified delimiter"
#[verifier::external_body]
pub fn vx_split_once<'a, P: VxPattern>(s: &'a str, p: P) -> (r: Option<(&'a str, &'a str)>)
    ensures
        match r {
            Some(ab) => {
                let i = find_sub(s@, p.pat());
                i >= 0 && ab.0@ == s@.take(i) && ab.1@ == s@.skip(i + p.pat().len())
            },
            None => find_sub(s@, p.pat()) < 0,
        }
{ unimplemented!() }

/// str::to_lowercase, abstract except on text that has no upper-case letter
pub uninterp spec fn lower_spec(s: Seq<char>) -> Seq<char>;

pub open spec fn no_upper_ascii_only(s: Seq<char>) -> bool {
    forall|i: int| 0 <= i < s.len() ==> ((#[trigger] s[i]) as u32) < 0x80 && !('A' <= s[i] && s[i] <= 'Z')
}

#[verifier::external_body]
pub proof fn axiom_lower_identity(s: Seq<char>)
    requires no_upper_ascii_only(s)
    ensures lower_spec(s) == s
{
}

#[verifier::external_body]
pub fn vx_to_lowercase(s: &str) -> (r: String)
    ensures r@ == lower_spec(s@)
{ unimplemented!() }

/// `s.splitn(2, pat)`: at most two pieces — the text before the first occurrence of pat and everything after it
#[verifier::external_body]
pub struct VxSplitN<'a> { it: core::marker::PhantomData<&'a str> }
impl<'a> VxSplitN<'a> {
    /// pieces not yet yielded
    pub uninterp spec fn view(&self) -> Seq<Seq<char>>;
    #[verifier::external_body]
    pub fn next(&mut self) -> (r: Option<&'a str>)
        ensures
            old(self)@.len() == 0 ==> r is None && final(self)@ == old(self)@,
            old(self)@.len() > 0 ==> r is Some && r->Some_0@ == old(self)@[0] && final(self)@ == old(self)@.skip(1),
    { unimplemented!() }
}
pub open spec fn splitn2_spec(s: Seq<char>, p: Seq<char>) -> Seq<Seq<char>> {
    let i = find_sub(s, p);
    if i < 0 { seq![s] } else { seq![s.take(i), s.skip(i + p.len())] }
}
#[verifier::external_body]
pub fn vx_splitn<'a, P: VxPattern>(s: &'a str, n: usize, p: P) -> (r: VxSplitN<'a>)
    requires n == 2
    ensures r@ == splitn2_spec(s@, p.pat())
{ unimplemented!() }

/// R-stradd: `String + &str` (std: appends)
#[verifier::external_body]
pub fn vx_string_add(a: String, b: &str) -> (r: String)
    ensures r@ == a@ + b@
{ a + b }

/// `Option<String>::unwrap_or_default()`
#[verifier::external_body]
pub fn vx_unwrap_or_default_string(o: Option<String>) -> (r: String)
    ensures r@ == (match o { Some(s) => s@, None => Seq::<char>::empty() })
{ unimplemented!() }

/// `Option<String>::as_deref()`
#[verifier::external_body]
pub fn vx_opt_as_deref(o: &Option<String>) -> (r: Option<&str>)
    ensures match o { Some(s) => r is Some && r->Some_0@ == s@, None => r is None }
{ unimplemented!() }

/// `Option::or_else(f)`
pub fn vx_or_else<T, F: FnOnce() -> Option<T>>(o: Option<T>, f: F) -> (r: Option<T>)
    requires o is None ==> call_requires(f, ())
    ensures match o { Some(x) => r == Some(x), None => call_ensures(f, (), r) }
{
    match o { Some(x) => Some(x), None => f() }
}

/// `s.split(c)` as the sequence of pieces not yet yielded (R-method-map in units where every `split` is on a str)
#[verifier::external_body]
pub struct VxSplitChar<'a> { it: core::marker::PhantomData<&'a str> }
impl<'a> VxSplitChar<'a> {
    pub uninterp spec fn view(&self) -> Seq<Seq<char>>;
    #[verifier::external_body]
    pub fn next(&mut self) -> (r: Option<&'a str>)
        ensures
            old(self)@.len() == 0 ==> r is None && final(self)@ == old(self)@,
            old(self)@.len() > 0 ==> r is Some && r->Some_0@ == old(self)@[0] && final(self)@ == old(self)@.skip(1),
    { unimplemented!() }
}
#[verifier::external_body]
pub fn vx_split_char<'a>(s: &'a str, c: char) -> (r: VxSplitChar<'a>)
    ensures r@ == split_char(s@, c), r@.len() >= 1,
        // at most one piece per byte of the str plus one, and a str has at most isize::MAX bytes
        r@.len() <= usize::MAX
{ unimplemented!() }

/// `Option::map_or_else(default, f)` (body verified)
pub fn vx_map_or_else<T, U, D: FnOnce() -> U, F: FnOnce(T) -> U>(o: Option<T>, default: D, f: F) -> (r: U)
    requires
        o is None ==> call_requires(default, ()),
        o is Some ==> call_requires(f, (o->Some_0,)),
    ensures
        match o { Some(x) => call_ensures(f, (x,), r), None => call_ensures(default, (), r) }
{
    match o { Some(x) => f(x), None => default() }
}

/// `Option::and_then(f)` (body verified)
pub fn vx_and_then<T, U, F: FnOnce(T) -> Option<U>>(o: Option<T>, f: F) -> (r: Option<U>)
    requires o is Some ==> call_requires(f, (o->Some_0,))
    ensures match o { Some(x) => call_ensures(f, (x,), r), None => r is None }
{
    match o { Some(x) => f(x), None => None }
}

/// `Option::filter(pred)`
pub assume_specification<T, P: FnOnce(&T) -> bool> [Option::<T>::filter] (o: Option<T>, pred: P) -> (r: Option<T>)
    requires o is Some ==> call_requires(pred, (&o->Some_0,))
    ensures
        match o {
            Some(x) => (call_ensures(pred, (&x,), true) && r == Some(x)) || (call_ensures(pred, (&x,), false) && r is None),
            None => r is None,
        };
