// ---------------------------------------------------------------------------------------------
// TRUSTED prelude: wrap_model.rs (unit wrap07, C07) - iterator chains and small std methods of `rebuild_value`
// as functions of the token vector.
// ---------------------------------------------------------------------------------------------
/// ASSUMED platform: 64-bit (`indentation as usize` from u32 does not truncate)
global layout usize is size == 8;

pub type VTok = (SyntaxKind, String);
/// byte length of a string's text (str::len counts bytes)
pub uninterp spec fn byte_len(s: Seq<char>) -> nat;
/// sum of the byte lengths of the tokens before the first NEWLINE token
pub open spec fn fll_spec(ts: Seq<VTok>) -> nat
    decreases ts.len()
{
    if ts.len() == 0 || ts[0].0 == NEWLINE { 0 } else { byte_len(ts[0].1@) + fll_spec(ts.skip(1)) }
}
pub open spec fn has_nl_spec(ts: Seq<VTok>) -> bool { exists|i: int| 0 <= i < ts.len() && (#[trigger] ts[i]).0 == NEWLINE }

/// R-chain: `tokens.iter().take_while(|(k, _t)| *k != NEWLINE).map(|(_k, t)| t.len()).sum::<usize>()`
/// (Iterator::sum panics on overflow in debug builds and wraps in release builds: the contract asks for no overflow)
#[verifier::external_body]
pub fn vx_first_line_len(tokens: &Vec<VTok>) -> (r: usize)
    requires fll_spec(tokens@) <= usize::MAX
    ensures r == fll_spec(tokens@)
{ unimplemented!() }

/// R-chain: `tokens.iter().any(|(k, _t)| *k == NEWLINE)`
#[verifier::external_body]
pub fn vx_has_newline(tokens: &Vec<VTok>) -> (r: bool)
    ensures r == has_nl_spec(tokens@)
{ unimplemented!() }

/// R-method-map: `v.first()` (slice::first through Deref)
#[verifier::external_body]
pub fn vx_vec_first<T>(v: &Vec<T>) -> (r: Option<&T>)
    ensures v@.len() == 0 ==> r is None, v@.len() > 0 ==> r is Some && *r->Some_0 == v@[0]
{ unimplemented!() }

pub open spec fn spaces(n: nat) -> Seq<char> { Seq::new(n, |i: int| ' ') }
/// R-method-map: `" ".repeat(n)` (only ever called on the one-space literal)
#[verifier::external_body]
pub fn vx_str_repeat(s: &str, n: usize) -> (r: String)
    requires s@ == seq![' ']
    ensures r@ == spaces(n as nat)
{ unimplemented!() }
