// ---------------------------------------------------------------------------------------------
// TRUSTED prelude: sort_model.rs - `Vec::sort()` (stable sort by the element type's Ord) as "a sorted permutation".
// The element type's order is named by the trait VxSortOrd (its impls are trusted declarations of the unit that say which
// proved comparison contract they stand for). `sort` REQUIRES the order to be a total preorder: std documents that
// otherwise the resulting order is unspecified and the call may panic - so consistency of the order is an obligation of
// every caller, not an assumption.
// ---------------------------------------------------------------------------------------------
pub trait VxSortOrd: Sized {
    spec fn sort_ord(a: Self, b: Self) -> core::cmp::Ordering;
}
/// p is a permutation of 0..n
pub open spec fn is_perm(p: Seq<int>, n: int) -> bool {
    &&& p.len() == n
    &&& forall|i: int| 0 <= i < n ==> 0 <= #[trigger] p[i] < n
    &&& forall|i: int, j: int| 0 <= i < j < n ==> #[trigger] p[i] != #[trigger] p[j]
}
/// b is a rearranged by p
pub open spec fn permuted<T>(a: Seq<T>, b: Seq<T>, p: Seq<int>) -> bool {
    &&& is_perm(p, a.len() as int)
    &&& b.len() == a.len()
    &&& forall|i: int| 0 <= i < b.len() ==> #[trigger] b[i] == a[p[i]]
}
pub open spec fn sorted_by_ord<T: VxSortOrd>(s: Seq<T>) -> bool {
    forall|i: int, j: int| 0 <= i < j < s.len() ==> T::sort_ord(#[trigger] s[i], #[trigger] s[j]) != core::cmp::Ordering::Greater
}
/// the permutation a sort applied (skolem function of the contract below)
pub uninterp spec fn sort_perm<T>(before: Seq<T>, after: Seq<T>) -> Seq<int>;

/// R-method-map target of `v.sort()`
#[verifier::external_body]
pub fn vx_vec_sort<T: VxSortOrd>(v: &mut Vec<T>)
    requires total_preorder(|a: T, b: T| T::sort_ord(a, b))
    ensures
        permuted(old(v)@, final(v)@, sort_perm(old(v)@, final(v)@)),
        sorted_by_ord(final(v)@),
{ unimplemented!() }

/// R-method-map target of `v.sort_by_key(f)`: a permutation (the order by key is not modelled)
#[verifier::external_body]
pub fn vx_vec_sort_by_key<T, K, F: Fn(&T) -> K>(v: &mut Vec<T>, f: F)
    requires forall|i: int| 0 <= i < old(v)@.len() ==> call_requires(f, (&#[trigger] old(v)@[i],))
    ensures permuted(old(v)@, final(v)@, sort_perm(old(v)@, final(v)@))
{ unimplemented!() }
