// ---------------------------------------------------------------------------------------------
// prelude: token_text.rs — specification vocabulary shared by the two rowan-based parsers
// (src/lossless.rs and debian-control/src/lossless/relations.rs): text conservation.
// Nothing here is trusted: spec functions and lemmas verified on every run. The unit provides
// `SyntaxKind`.
// ---------------------------------------------------------------------------------------------


/// text of the token stack in consumption order (the stack is reversed: its last element is next)
pub open spec fn stack_text(toks: Seq<(SyntaxKind, String)>) -> Seq<char>
    decreases toks.len()
{
    if toks.len() == 0 { Seq::empty() } else { toks.last().1@ + stack_text(toks.drop_last()) }
}

/// text of a token list in file order
pub open spec fn fwd_text(toks: Seq<(SyntaxKind, String)>) -> Seq<char>
    decreases toks.len()
{
    if toks.len() == 0 { Seq::empty() } else { fwd_text(toks.drop_last()) + toks.last().1@ }
}

pub open spec fn cur_kind(toks: Seq<(SyntaxKind, String)>) -> Option<SyntaxKind> {
    if toks.len() > 0 { Some(toks.last().0) } else { None }
}

pub proof fn lemma_stack_text_reverse(toks: Seq<(SyntaxKind, String)>)
    ensures stack_text(toks.reverse()) == fwd_text(toks)
    decreases toks.len()
{
    if toks.len() == 0 {
        assert(toks.reverse() =~= toks);
    } else {
        let r = toks.reverse();
        // r.last() == toks[0]; r.drop_last() == toks.skip(1).reverse()
        assert(r.last() == toks[0]);
        assert(r.drop_last() =~= toks.skip(1).reverse());
        lemma_stack_text_reverse(toks.skip(1));
        lemma_fwd_text_front(toks);
    }
}

pub proof fn lemma_fwd_text_front(toks: Seq<(SyntaxKind, String)>)
    requires toks.len() > 0
    ensures fwd_text(toks) == toks[0].1@ + fwd_text(toks.skip(1))
    decreases toks.len()
{
    if toks.len() == 1 {
        assert(toks.drop_last() =~= Seq::<(SyntaxKind, String)>::empty());
        assert(toks.skip(1) =~= Seq::<(SyntaxKind, String)>::empty());
        assert(fwd_text(toks) =~= toks[0].1@ + fwd_text(toks.skip(1)));
    } else {
        lemma_fwd_text_front(toks.drop_last());
        assert(toks.drop_last().skip(1) =~= toks.skip(1).drop_last());
        assert(toks.skip(1).last() == toks.last());
        assert(fwd_text(toks) =~= toks[0].1@ + fwd_text(toks.skip(1)));
    }
}

