// ---------------------------------------------------------------------------------------------
// TRUSTED prelude: rowan_tree_model.rs — the part of rowan 0.16 the deb822 parser and its read-only
// accessors use, as a *tree* model (C03). Supersedes rowan_model.rs (text model) in the units that use it.
//
// A green tree is `Tree`: a token (kind, text) or a node (kind, children). GreenNodeBuilder
// (rowan/src/green/builder.rs) is a stack of open nodes, each with the children collected so far, plus the
// finished top-level elements: `start_node` pushes an empty frame, `token` appends a leaf to the top
// frame, `finish_node` pops the top frame and appends it as a node to the frame below (or to the
// top-level list), `finish` requires exactly one finished top-level element, a node, and returns it.
//
// SyntaxNode / SyntaxToken / NodeOrToken (rowan/src/api.rs, cursor.rs): a handle *is* its green subtree
// for the purposes of this model (`tree()`): `children()` yields the child nodes in order,
// `children_with_tokens()` yields all children in order, `kind()`/`text()` read the subtree.
// SOUNDNESS CONDITION: `tree()` is the subtree at the time of the call. Trees made by new_root_mut are
// mutable through &self in rowan (splice_children, detach). The model gives `splice_children` a `&mut self`
// receiver: the handle *through which the edit is made* is the one whose `tree()` changes, and only that one.
// Other handles into the same tree (children obtained earlier, a parent, an iterator) are NOT updated by the
// model: a contract may not use such a handle after an edit (the edit functions under contract in unit
// deb822edit return right after their single splice). Aliasing — "handles obtained earlier see the edit",
// `detach()` on a child changing its parent — is outside this model.
// The unit must define the enum `SyntaxKind`; Lang::kind_to_raw / kind_from_raw (an unsafe transmute in
// the repository) is assumed to be the identity on it.
// ---------------------------------------------------------------------------------------------
pub mod rowan {
    use super::*;

    #[verifier::external_body]
    pub struct SyntaxKind { k: u16 }
    impl SyntaxKind {
        /// the unit's kind this raw kind was made from
        pub uninterp spec fn of(&self) -> super::SyntaxKind;
    }

    pub ghost enum Tree {
        Tok(super::SyntaxKind, Seq<char>),
        Node(super::SyntaxKind, Seq<Tree>),
    }

    pub open spec fn tree_kind(t: Tree) -> super::SyntaxKind {
        match t { Tree::Tok(k, _) => k, Tree::Node(k, _) => k }
    }
    pub open spec fn tree_children(t: Tree) -> Seq<Tree> {
        match t { Tree::Tok(_, _) => Seq::empty(), Tree::Node(_, ch) => ch }
    }
    /// the text of a subtree: its leaves in order
    pub open spec fn tree_text(t: Tree) -> Seq<char>
        decreases t
    {
        match t { Tree::Tok(_, s) => s, Tree::Node(_, ch) => trees_text(ch) }
    }
    pub open spec fn trees_text(ch: Seq<Tree>) -> Seq<char>
        decreases ch
    {
        if ch.len() == 0 { Seq::empty() } else { trees_text(ch.drop_last()) + tree_text(ch.last()) }
    }
    /// the children that are nodes, in order
    pub open spec fn child_nodes(ch: Seq<Tree>) -> Seq<Tree>
        decreases ch.len()
    {
        if ch.len() == 0 { Seq::empty() }
        else if ch.last() is Node { child_nodes(ch.drop_last()).push(ch.last()) }
        else { child_nodes(ch.drop_last()) }
    }

    /// an open node: its kind and the children collected so far
    pub ghost struct Frame { pub kind: super::SyntaxKind, pub ch: Seq<Tree> }

    pub ghost struct BState {
        /// the open nodes, outermost first
        pub stack: Seq<Frame>,
        /// finished top-level elements
        pub done: Seq<Tree>,
    }
    impl BState {
        /// append one element to the innermost open node (to the top-level list when none is open)
        pub open spec fn push_elem(self, e: Tree) -> BState {
            if self.stack.len() == 0 { BState { done: self.done.push(e), ..self } }
            else {
                let top = self.stack.last();
                BState { stack: self.stack.drop_last().push(Frame { ch: top.ch.push(e), ..top }), ..self }
            }
        }
        /// append several elements to the innermost open node
        pub open spec fn append(self, es: Seq<Tree>) -> BState {
            if self.stack.len() == 0 { BState { done: self.done + es, ..self } }
            else {
                let top = self.stack.last();
                BState { stack: self.stack.drop_last().push(Frame { ch: top.ch + es, ..top }), ..self }
            }
        }
    }

    #[verifier::external_body]
    pub struct GreenNodeBuilder { _p: () }

    #[verifier::external_body]
    pub struct GreenNode { _p: () }

    impl GreenNode {
        pub uninterp spec fn tree(&self) -> Tree;

        #[verifier::external_body]
        pub fn clone(&self) -> (r: Self)
            ensures r == *self
        { unimplemented!() }
    }

    impl GreenNodeBuilder {
        pub uninterp spec fn view(&self) -> BState;

        #[verifier::external_body]
        pub fn new() -> (r: Self)
            ensures r@ == (BState { stack: Seq::empty(), done: Seq::empty() })
        { unimplemented!() }

        #[verifier::external_body]
        pub fn start_node(&mut self, kind: SyntaxKind)
            ensures final(self)@ == (BState { stack: old(self)@.stack.push(Frame { kind: kind.of(), ch: Seq::empty() }), ..old(self)@ })
        { unimplemented!() }

        /// a token outside any node can never be part of a tree accepted by `finish`
        #[verifier::external_body]
        pub fn token(&mut self, kind: SyntaxKind, text: &str)
            requires old(self)@.stack.len() > 0
            ensures final(self)@ == old(self)@.push_elem(Tree::Tok(kind.of(), text@))
        { unimplemented!() }

        #[verifier::external_body]
        pub fn finish_node(&mut self)
            requires old(self)@.stack.len() > 0
            ensures final(self)@ == (BState { stack: old(self)@.stack.drop_last(), ..old(self)@ })
                .push_elem(Tree::Node(old(self)@.stack.last().kind, old(self)@.stack.last().ch))
        { unimplemented!() }

        #[verifier::external_body]
        pub fn finish(self) -> (r: GreenNode)
            requires self@.stack.len() == 0, self@.done.len() == 1, self@.done[0] is Node
            ensures r.tree() == self@.done[0]
        { unimplemented!() }
    }

    /// rowan::SyntaxNode<Lang> (R-type-map drops the language parameter)
    #[verifier::external_body]
    pub struct SyntaxNode { _p: () }

    /// rowan::SyntaxToken<Lang>
    #[verifier::external_body]
    pub struct SyntaxToken { _p: () }

    #[verifier::external_body]
    pub struct SyntaxText { _p: () }

    impl SyntaxText {
        pub uninterp spec fn view(&self) -> Seq<char>;

        /// ToString through Display
        #[verifier::external_body]
        pub fn to_string(&self) -> (r: String)
            ensures r@ == self@
        { unimplemented!() }
    }

    /// rowan::NodeOrToken (same two variants)
    pub enum NodeOrToken<N, T> { Node(N), Token(T) }

    impl<N, T> NodeOrToken<N, T> {
        /// restated from rowan/src/utility_types.rs
        pub fn into_token(self) -> (r: Option<T>)
            ensures r == (match self { NodeOrToken::Token(t) => Some(t), NodeOrToken::Node(_) => None::<T> })
        {
            match self { NodeOrToken::Token(t) => Some(t), NodeOrToken::Node(_) => None }
        }
        pub fn into_node(self) -> (r: Option<N>)
            ensures r == (match self { NodeOrToken::Node(n) => Some(n), NodeOrToken::Token(_) => None::<N> })
        {
            match self { NodeOrToken::Node(n) => Some(n), NodeOrToken::Token(_) => None }
        }
    }

    pub type SyntaxElement = NodeOrToken<SyntaxNode, SyntaxToken>;

    impl NodeOrToken<SyntaxNode, SyntaxToken> {
        /// restated from rowan/src/api.rs (`SyntaxElement::kind`)
        pub fn kind(&self) -> (r: super::SyntaxKind)
            ensures r == tree_kind(elem_tree(*self))
        {
            match self { NodeOrToken::Node(n) => n.kind(), NodeOrToken::Token(t) => t.kind() }
        }
    }

    pub open spec fn elem_tree(e: SyntaxElement) -> Tree {
        match e { NodeOrToken::Node(n) => n.tree(), NodeOrToken::Token(t) => t.tree() }
    }
    pub open spec fn elems_trees(es: Seq<SyntaxElement>) -> Seq<Tree> { es.map_values(|e: SyntaxElement| elem_tree(e)) }
    /// positions (among all children) of the children that are nodes, in order
    pub open spec fn node_positions(ch: Seq<Tree>) -> Seq<int>
        decreases ch.len()
    {
        if ch.len() == 0 { Seq::empty() }
        else if ch.last() is Node { node_positions(ch.drop_last()).push(ch.len() - 1) }
        else { node_positions(ch.drop_last()) }
    }

    impl SyntaxToken {
        /// the leaf this handle points at
        pub uninterp spec fn tree(&self) -> Tree;

        #[verifier::external_body]
        pub fn kind(&self) -> (r: super::SyntaxKind)
            ensures r == tree_kind(self.tree())
        { unimplemented!() }

        #[verifier::external_body]
        pub fn text(&self) -> (r: &str)
            ensures r@ == tree_text(self.tree())
        { unimplemented!() }
    }

    /// a SyntaxNode handle always points at a node, never at a token
    #[verifier::external_body]
    pub proof fn axiom_node_is_node(n: SyntaxNode)
        ensures n.tree() is Node
    { }

    /// the children of an in-memory node are counted by a usize (the same assumption as in children_with_tokens)
    #[verifier::external_body]
    pub proof fn axiom_children_count(n: SyntaxNode)
        ensures tree_children(n.tree()).len() < usize::MAX
    { }

    impl SyntaxNode {
        /// the green subtree this handle points at (at the time of the call)
        pub uninterp spec fn tree(&self) -> Tree;

        /// another handle to the same node
        #[verifier::external_body]
        pub fn clone(&self) -> (r: Self)
            ensures r == *self
        { unimplemented!() }

        #[verifier::external_body]
        pub fn new_root(g: GreenNode) -> (r: Self)
            ensures r.tree() == g.tree()
        { unimplemented!() }

        #[verifier::external_body]
        pub fn new_root_mut(g: GreenNode) -> (r: Self)
            ensures r.tree() == g.tree()
        { unimplemented!() }

        #[verifier::external_body]
        pub fn kind(&self) -> (r: super::SyntaxKind)
            ensures r == tree_kind(self.tree())
        { unimplemented!() }

        /// the first token of the subtree (partial contract: decided only when the first child is a token)
        #[verifier::external_body]
        pub fn first_token(&self) -> (r: Option<SyntaxToken>)
            ensures
                r is Some ==> r->Some_0.tree() is Tok,
                tree_children(self.tree()).len() > 0 && tree_children(self.tree())[0] is Tok
                    ==> r is Some && r->Some_0.tree() == tree_children(self.tree())[0],
        { unimplemented!() }

        #[verifier::external_body]
        pub fn text(&self) -> (r: SyntaxText)
            ensures r@ == tree_text(self.tree())
        { unimplemented!() }

        /// the child nodes, in order, each knowing its position among all children
        #[verifier::external_body]
        pub fn children(&self) -> (r: VxIter<SyntaxNode>)
            ensures
                r@.len() == child_nodes(tree_children(self.tree())).len(),
                forall|i: int| 0 <= i < r@.len() ==> (#[trigger] r@[i]).tree() == child_nodes(tree_children(self.tree()))[i]
                    && r@[i].index_spec() == node_positions(tree_children(self.tree()))[i],
                // the same fact, usable from the tree side
                forall|i: int| 0 <= i < r@.len() ==> #[trigger] child_nodes(tree_children(self.tree()))[i] == r@[i].tree(),
        { unimplemented!() }

        /// position among the parent's children (nodes and tokens)
        pub uninterp spec fn index_spec(&self) -> int;

        #[verifier::external_body]
        pub fn index(&self) -> (r: usize)
            // a position among the parent's children is smaller than their number, which fits a usize
            ensures r == self.index_spec(), r < usize::MAX
        { unimplemented!() }

        /// rowan 0.16.1 `splice_children(&self, to_delete, to_insert)`: detaches the children in `to_delete`, then attaches
        /// the new elements at `to_delete.start`. Its deletion loop iterates over the children while detaching them, and
        /// rowan's children iterator ends once the child it last yielded has been detached (see VxLiveIter below), so
        /// at most ONE child - the first of the range - is removed, and a range starting at the end removes nothing.
        /// The model accepts only ranges of at most one element (every use in the repository); attaching beyond the
        /// end panics. MODEL: `&mut self`, see the header.
        #[verifier::external_body]
        pub fn splice_children(&mut self, to_delete: core::ops::Range<usize>, to_insert: Vec<SyntaxElement>)
            requires
                old(self).tree() is Node,
                to_delete.start <= to_delete.end, to_delete.end - to_delete.start <= 1,
                to_delete.start <= tree_children(old(self).tree()).len(),
            ensures
                final(self).tree() == Tree::Node(tree_kind(old(self).tree()),
                    tree_children(old(self).tree()).take(to_delete.start as int) + elems_trees(to_insert@)
                        + tree_children(old(self).tree()).skip(
                            if to_delete.end <= tree_children(old(self).tree()).len() { to_delete.end as int } else { to_delete.start as int })),
        { unimplemented!() }

        /// all children, nodes and tokens, in order
        #[verifier::external_body]
        pub fn children_with_tokens(&self) -> (r: VxIter<SyntaxElement>)
            ensures
                r@.len() == tree_children(self.tree()).len(),
                // the children of an in-memory node are counted by a usize (rowan stores the count as u32)
                r@.len() < usize::MAX,
                forall|i: int| 0 <= i < r@.len() ==> elem_tree(#[trigger] r@[i]) == tree_children(self.tree())[i]
                    && (r@[i] is Node <==> tree_children(self.tree())[i] is Node),
                forall|i: int| 0 <= i < r@.len() ==> #[trigger] tree_children(self.tree())[i] == elem_tree(r@[i]),
        { unimplemented!() }
    }
}
use rowan::{GreenNode, GreenNodeBuilder};

/// `children_with_tokens()` in a loop that edits the same node. rowan's SyntaxElementChildren::next computes
/// `last_yielded.next_sibling_or_token()` when it is called; once the last yielded child has been detached that is None
/// and the iteration ends. The model over-approximates: the children at the time of the call, in order, and `next` may
/// return None at any point (no promise that the sequence is exhausted). Real runs are a subset of the modelled ones as
/// long as the loop removes only the child it was just given (the one use in the repository does).
#[verifier::external_body]
#[verifier::reject_recursive_types(T)]
pub struct VxLiveIter<T> { it: Box<dyn Iterator<Item = T>> }
impl<T> VxLiveIter<T> {
    pub uninterp spec fn view(&self) -> Seq<T>;

    #[verifier::external_body]
    pub fn next(&mut self) -> (r: Option<T>)
        ensures
            r is Some ==> old(self)@.len() > 0 && r == Some(old(self)@[0]) && final(self)@ == old(self)@.skip(1),
            r is None ==> final(self)@ == old(self)@,
    { unimplemented!() }
}
/// R-method-map (per source): `n.children_with_tokens()` => `vx_children_live(&n)` in methods that edit `n` inside the loop
#[verifier::external_body]
pub fn vx_children_live(n: &rowan::SyntaxNode) -> (r: VxLiveIter<rowan::SyntaxElement>)
    ensures
        r@.len() == rowan::tree_children(n.tree()).len(),
        r@.len() < usize::MAX,
        forall|i: int| 0 <= i < r@.len() ==> rowan::elem_tree(#[trigger] r@[i]) == rowan::tree_children(n.tree())[i],
{ unimplemented!() }


impl VxDisplay for rowan::SyntaxText {
    open spec fn display_spec(&self) -> Seq<char> { self@ }
}
/// R-method-map (unit deb822edit): `node.into()` (impl From<SyntaxNode> for SyntaxElement) => vx_node_into(node)
pub fn vx_node_into(n: rowan::SyntaxNode) -> (r: rowan::SyntaxElement)
    ensures r == rowan::NodeOrToken::<rowan::SyntaxNode, rowan::SyntaxToken>::Node(n)
{ rowan::NodeOrToken::Node(n) }

/// R-method-map: `kind.into()` (impl From<SyntaxKind> for rowan::SyntaxKind) => vx_kind_into(kind)
#[verifier::external_body]
pub fn vx_kind_into(k: SyntaxKind) -> (r: rowan::SyntaxKind)
    ensures r.of() == k
{ unimplemented!() }

/// R-method-map (type-directed): `x.into()` => `VxInto::vx_into(x)` for the two conversions rowan code uses:
/// SyntaxKind -> rowan::SyntaxKind and SyntaxNode -> SyntaxElement
pub trait VxInto<T>: Sized {
    spec fn into_ok(self, r: T) -> bool;
    fn vx_into(self) -> (r: T)
        ensures self.into_ok(r);
}
impl VxInto<rowan::SyntaxKind> for SyntaxKind {
    open spec fn into_ok(self, r: rowan::SyntaxKind) -> bool { r.of() == self }
    fn vx_into(self) -> (r: rowan::SyntaxKind) { vx_kind_into(self) }
}
impl VxInto<rowan::SyntaxElement> for rowan::SyntaxNode {
    open spec fn into_ok(self, r: rowan::SyntaxElement) -> bool { r == rowan::NodeOrToken::<rowan::SyntaxNode, rowan::SyntaxToken>::Node(self) }
    fn vx_into(self) -> (r: rowan::SyntaxElement) { vx_node_into(self) }
}
impl VxInto<rowan::SyntaxElement> for rowan::SyntaxToken {
    open spec fn into_ok(self, r: rowan::SyntaxElement) -> bool { r == rowan::NodeOrToken::<rowan::SyntaxNode, rowan::SyntaxToken>::Token(self) }
    fn vx_into(self) -> (r: rowan::SyntaxElement) { rowan::NodeOrToken::Token(self) }
}
pub fn vx_into<S: VxInto<T>, T>(s: S) -> (r: T)
    ensures s.into_ok(r)
{ s.vx_into() }
