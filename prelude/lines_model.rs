// ---------------------------------------------------------------------------------------------
// TRUSTED prelude: lines_model.rs — `str::lines()` as a sequence of lines.
//
// `lines_of` is a *defined* spec function (std documentation of str::lines: split at '\n',
// a final empty piece is dropped, one trailing '\r' of each line is dropped). What is trusted
// is only that `str::lines()` yields exactly `lines_of(s@)` (R-method-map: `s.lines()` =>
// `vx_lines(s)`).
// ---------------------------------------------------------------------------------------------

/// index of the first '\n' in s, or s.len()
pub open spec fn first_nl(s: Seq<char>) -> int
    decreases s.len()
{
    if s.len() == 0 { 0 } else if s[0] == '\n' { 0 } else { 1 + first_nl(s.skip(1)) }
}

pub open spec fn strip_cr(l: Seq<char>) -> Seq<char> {
    if l.len() > 0 && l.last() == '\r' { l.drop_last() } else { l }
}

pub open spec fn lines_of(s: Seq<char>) -> Seq<Seq<char>>
    decreases s.len()
{
    if s.len() == 0 {
        Seq::empty()
    } else {
        let n = first_nl(s);
        if n >= s.len() {
            seq![strip_cr(s)]
        } else if n < 0 {
            Seq::empty()  // unreachable (first_nl >= 0); keeps the definition total
        } else {
            seq![strip_cr(s.take(n))] + lines_of(s.skip(n + 1))
        }
    }
}

#[verifier::external_body]
pub struct VxLines<'a> { it: std::str::Lines<'a> }

impl<'a> VxLines<'a> {
    /// the lines not yet yielded
    pub uninterp spec fn view(&self) -> Seq<Seq<char>>;

    #[verifier::external_body]
    pub fn next(&mut self) -> (r: Option<&'a str>)
        ensures
            old(self)@.len() == 0 ==> r.is_none() && final(self)@ == old(self)@,
            old(self)@.len() > 0 ==> r.is_some() && r.unwrap()@ == old(self)@[0] && final(self)@ == old(self)@.skip(1),
    { unimplemented!() }

    /// Iterator::any (operational contract: consumes up to and including the first hit)
    #[verifier::external_body]
    pub fn any<F: Fn(&'a str) -> bool>(&mut self, f: F) -> (r: bool)
        requires forall|s: &'a str| call_requires(f, (s,))
        ensures
            r ==> exists|i: int| 0 <= i < old(self)@.len() && final(self)@ == #[trigger] old(self)@.skip(i + 1)
                && (forall|s: &'a str| s@ == old(self)@[i] ==> #[trigger] call_ensures(f, (s,), true)),
            !r ==> final(self)@.len() == 0
                && (forall|i: int, s: &'a str| #![trigger old(self)@[i], call_ensures(f, (s,), false)]
                    0 <= i < old(self)@.len() && s@ == old(self)@[i] ==> call_ensures(f, (s,), false)),
    { unimplemented!() }

    /// Iterator::count
    #[verifier::external_body]
    pub fn count(self) -> (r: usize)
        ensures r == self@.len()
    { unimplemented!() }
}

#[verifier::external_body]
pub fn vx_lines<'a>(s: &'a str) -> (r: VxLines<'a>)
    ensures r@ == lines_of(s@)
{ VxLines { it: s.lines() } }

/// R-chain: `s.lines().collect::<Vec<_>>()`
#[verifier::external_body]
pub fn vx_lines_vec<'a>(s: &'a String) -> (r: Vec<&'a str>)
    ensures r@.len() == lines_of(s@).len(), forall|i: int| 0 <= i < r@.len() ==> (#[trigger] r@[i])@ == lines_of(s@)[i]
{ s.lines().collect() }
