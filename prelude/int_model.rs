// ---------------------------------------------------------------------------------------------
// prelude: int_model.rs — decimal text of unsigned integers.
// TRUSTED: `usize: Display` writes dec_text(n) and `str::parse::<usize>` is parse_usize_spec
// (std: optional '+', then one or more ASCII digits, Err on overflow). The lemmas are verified.
// R-method-map: `s.parse()` / `s.parse::<T>()` => `vx_parse(s)` / `vx_parse::<T>(s)`, generic over the
// target type exactly like std's `str::parse::<F: FromStr>` (= `F::from_str(s)`).
// ---------------------------------------------------------------------------------------------

pub open spec fn digit_char(d: nat) -> char {
    if d == 0 { '0' } else if d == 1 { '1' } else if d == 2 { '2' } else if d == 3 { '3' } else if d == 4 { '4' }
    else if d == 5 { '5' } else if d == 6 { '6' } else if d == 7 { '7' } else if d == 8 { '8' } else { '9' }
}
pub open spec fn is_digit(c: char) -> bool { '0' <= c && c <= '9' }
pub open spec fn digit_val(c: char) -> nat { (c as u32 - '0' as u32) as nat }

/// decimal text without sign or leading zeros
pub open spec fn dec_text(n: nat) -> Seq<char>
    decreases n
{
    if n < 10 { seq![digit_char(n)] } else { dec_text(n / 10) + seq![digit_char(n % 10)] }
}
pub open spec fn all_digits(s: Seq<char>) -> bool { forall|i: int| 0 <= i < s.len() ==> is_digit(#[trigger] s[i]) }

/// value of a digit string
pub open spec fn dec_value(s: Seq<char>) -> nat
    decreases s.len()
{
    if s.len() == 0 { 0 } else { dec_value(s.drop_last()) * 10 + digit_val(s.last()) }
}
pub open spec fn parse_usize_spec(s: Seq<char>) -> Option<nat> {
    let t = if s.len() > 0 && s[0] == '+' { s.skip(1) } else { s };
    if t.len() > 0 && all_digits(t) && dec_value(t) <= usize::MAX { Some(dec_value(t)) } else { None }
}

pub proof fn lemma_dec_text(n: nat)
    ensures dec_text(n).len() > 0, all_digits(dec_text(n)), dec_value(dec_text(n)) == n, dec_text(n)[0] != '+'
    decreases n
{
    if n < 10 {
        let t = dec_text(n);
        assert(t =~= seq![digit_char(n)]);
        assert(t.drop_last() =~= Seq::<char>::empty());
        assert(t.last() == digit_char(n));
        reveal_with_fuel(dec_value, 2);
        assert(dec_value(t) == dec_value(t.drop_last()) * 10 + digit_val(t.last()));
    } else {
        lemma_dec_text(n / 10);
        let a = dec_text(n / 10);
        let d = digit_char(n % 10);
        assert((a + seq![d]).drop_last() =~= a);
        assert((a + seq![d]).last() == d);
        assert((a + seq![d])[0] == a[0]);
        assert(digit_val(d) == n % 10);
        assert forall|i: int| 0 <= i < (a + seq![d]).len() implies is_digit(#[trigger] (a + seq![d])[i]) by {
            if i < a.len() { assert((a + seq![d])[i] == a[i]); }
        }
    }
}

/// usize -> text -> usize
pub proof fn lemma_usize_roundtrip(n: usize)
    ensures parse_usize_spec(dec_text(n as nat)) == Some(n as nat)
{
    lemma_dec_text(n as nat);
}

pub trait VxFromStr: Sized {
    type VxErr;
    /// FromStr::from_str as a relation between the text and an accepted value ...
    spec fn parse_rel(s: Seq<char>, v: Self) -> bool;
    /// ... and the texts it rejects
    spec fn parse_err(s: Seq<char>) -> bool;
    fn vx_from_str(s: &str) -> (r: Result<Self, Self::VxErr>)
        ensures match r { Ok(v) => Self::parse_rel(s@, v) && !Self::parse_err(s@), Err(_) => Self::parse_err(s@) };
}

/// R-method-map target of `.parse()`
pub fn vx_parse<T: VxFromStr>(s: &str) -> (r: Result<T, T::VxErr>)
    ensures match r { Ok(v) => T::parse_rel(s@, v) && !T::parse_err(s@), Err(_) => T::parse_err(s@) }
{
    T::vx_from_str(s)
}

/// stand-in for std::num::ParseIntError
pub struct VxParseIntError;
impl VxDisplay for VxParseIntError {
    uninterp spec fn display_spec(&self) -> Seq<char>;
}

impl VxFromStr for usize {
    type VxErr = VxParseIntError;
    open spec fn parse_rel(s: Seq<char>, v: usize) -> bool { parse_usize_spec(s) == Some(v as nat) }
    open spec fn parse_err(s: Seq<char>) -> bool { parse_usize_spec(s) is None }
    #[verifier::external_body]
    fn vx_from_str(s: &str) -> (r: Result<usize, VxParseIntError>) { unimplemented!() }
}

impl VxDisplay for usize {
    open spec fn display_spec(&self) -> Seq<char> { dec_text(*self as nat) }
}

impl VxFromStr for u8 {
    type VxErr = VxParseIntError;
    open spec fn parse_rel(s: Seq<char>, v: u8) -> bool {
        let t = if s.len() > 0 && s[0] == '+' { s.skip(1) } else { s };
        t.len() > 0 && all_digits(t) && dec_value(t) <= u8::MAX && v as nat == dec_value(t)
    }
    open spec fn parse_err(s: Seq<char>) -> bool {
        let t = if s.len() > 0 && s[0] == '+' { s.skip(1) } else { s };
        !(t.len() > 0 && all_digits(t) && dec_value(t) <= u8::MAX)
    }
    #[verifier::external_body]
    fn vx_from_str(s: &str) -> (r: Result<u8, VxParseIntError>) { unimplemented!() }
}
impl VxDisplay for u8 {
    open spec fn display_spec(&self) -> Seq<char> { dec_text(*self as nat) }
}

impl VxFromStr for u16 {
    type VxErr = VxParseIntError;
    open spec fn parse_rel(s: Seq<char>, v: u16) -> bool {
        let t = if s.len() > 0 && s[0] == '+' { s.skip(1) } else { s };
        t.len() > 0 && all_digits(t) && dec_value(t) <= u16::MAX && v as nat == dec_value(t)
    }
    open spec fn parse_err(s: Seq<char>) -> bool {
        let t = if s.len() > 0 && s[0] == '+' { s.skip(1) } else { s };
        !(t.len() > 0 && all_digits(t) && dec_value(t) <= u16::MAX)
    }
    #[verifier::external_body]
    fn vx_from_str(s: &str) -> (r: Result<u16, VxParseIntError>) { unimplemented!() }
}
impl VxDisplay for u16 {
    open spec fn display_spec(&self) -> Seq<char> { dec_text(*self as nat) }
}

impl VxFromStr for u32 {
    type VxErr = VxParseIntError;
    open spec fn parse_rel(s: Seq<char>, v: u32) -> bool {
        let t = if s.len() > 0 && s[0] == '+' { s.skip(1) } else { s };
        t.len() > 0 && all_digits(t) && dec_value(t) <= u32::MAX && v as nat == dec_value(t)
    }
    open spec fn parse_err(s: Seq<char>) -> bool {
        let t = if s.len() > 0 && s[0] == '+' { s.skip(1) } else { s };
        !(t.len() > 0 && all_digits(t) && dec_value(t) <= u32::MAX)
    }
    #[verifier::external_body]
    fn vx_from_str(s: &str) -> (r: Result<u32, VxParseIntError>) { unimplemented!() }
}
impl VxDisplay for u32 {
    open spec fn display_spec(&self) -> Seq<char> { dec_text(*self as nat) }
}

impl VxFromStr for u64 {
    type VxErr = VxParseIntError;
    open spec fn parse_rel(s: Seq<char>, v: u64) -> bool {
        let t = if s.len() > 0 && s[0] == '+' { s.skip(1) } else { s };
        t.len() > 0 && all_digits(t) && dec_value(t) <= u64::MAX && v as nat == dec_value(t)
    }
    open spec fn parse_err(s: Seq<char>) -> bool {
        let t = if s.len() > 0 && s[0] == '+' { s.skip(1) } else { s };
        !(t.len() > 0 && all_digits(t) && dec_value(t) <= u64::MAX)
    }
    #[verifier::external_body]
    fn vx_from_str(s: &str) -> (r: Result<u64, VxParseIntError>) { unimplemented!() }
}
impl VxDisplay for u64 {
    open spec fn display_spec(&self) -> Seq<char> { dec_text(*self as nat) }
}
