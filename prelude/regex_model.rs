// ---------------------------------------------------------------------------------------------
// TRUSTED prelude: regex_model.rs — the part of the `regex` crate used by the DEP-5 glob code.
//   * regex::escape is *defined* (regex-syntax 0.8: a backslash before each meta character);
//   * Regex::new succeeds on, and is_match has the standard semantics for, the fragment the glob
//     translator emits:  '^' item* '$'  with item ::= ".*" | "." | escaped-literal.
// What is assumed is the regex engine, not the translation (the translation is proved).
// ---------------------------------------------------------------------------------------------
pub open spec fn is_regex_meta(c: char) -> bool {
    c == '\\' || c == '.' || c == '+' || c == '*' || c == '?' || c == '(' || c == ')' || c == '|' || c == '['
        || c == ']' || c == '{' || c == '}' || c == '^' || c == '$' || c == '#' || c == '&' || c == '-' || c == '~'
}
pub open spec fn escape_char(c: char) -> Seq<char> {
    if is_regex_meta(c) { seq!['\\', c] } else { seq![c] }
}
pub open spec fn escape_spec(s: Seq<char>) -> Seq<char>
    decreases s.len()
{
    if s.len() == 0 { Seq::empty() } else { escape_spec(s.drop_last()) + escape_char(s.last()) }
}

/// items of the emitted fragment
pub enum RxItem { AnyRun, AnyOne, Lit(char) }

pub open spec fn rx_item_text(i: RxItem) -> Seq<char> {
    match i {
        RxItem::AnyRun => seq!['.', '*'],
        RxItem::AnyOne => seq!['.'],
        RxItem::Lit(c) => escape_char(c),
    }
}
pub open spec fn rx_items_text(items: Seq<RxItem>) -> Seq<char>
    decreases items.len()
{
    if items.len() == 0 { Seq::empty() } else { rx_items_text(items.drop_last()) + rx_item_text(items.last()) }
}
/// the anchored pattern text for a list of items
pub open spec fn rx_pattern(items: Seq<RxItem>) -> Seq<char> {
    seq!['^'] + rx_items_text(items) + seq!['$']
}
/// standard semantics of the fragment on a whole string ('.' does not match LF)
pub open spec fn rx_items_match(items: Seq<RxItem>, s: Seq<char>) -> bool
    decreases items.len(), s.len()
{
    if items.len() == 0 { s.len() == 0 }
    else {
        match items[0] {
            RxItem::AnyRun => rx_items_match(items.skip(1), s) || (s.len() > 0 && s[0] != '\n' && rx_items_match(items, s.skip(1))),
            RxItem::AnyOne => s.len() > 0 && s[0] != '\n' && rx_items_match(items.skip(1), s.skip(1)),
            RxItem::Lit(c) => s.len() > 0 && s[0] == c && rx_items_match(items.skip(1), s.skip(1)),
        }
    }
}

pub mod regex {
    use super::*;
    #[verifier::external_body]
    pub struct Regex { _p: () }
    #[derive(Debug)]
    pub struct Error;

    impl Regex {
        pub uninterp spec fn pattern(&self) -> Seq<char>;

        /// succeeds at least on every pattern of the emitted fragment
        #[verifier::external_body]
        pub fn new(p: &str) -> (r: Result<Regex, Error>)
            ensures
                (exists|items: Seq<RxItem>| p@ == rx_pattern(items)) ==> r is Ok,
                r is Ok ==> r->Ok_0.pattern() == p@,
        { unimplemented!() }

        /// standard semantics on the emitted fragment
        #[verifier::external_body]
        pub fn is_match(&self, s: &str) -> (r: bool)
            ensures forall|items: Seq<RxItem>| self.pattern() == #[trigger] rx_pattern(items) ==> r == rx_items_match(items, s@),
        { unimplemented!() }
    }

    #[verifier::external_body]
    pub fn escape(s: &str) -> (r: String)
        ensures r@ == escape_spec(s@)
    { unimplemented!() }
}

/// std::path::Path restricted to `to_str`
pub mod pathm {
    use super::*;
    #[verifier::external_body]
    pub struct Path { _p: () }
    impl Path {
        /// Some(text) iff the path is valid UTF-8
        pub uninterp spec fn utf8(&self) -> Option<Seq<char>>;
        #[verifier::external_body]
        pub fn to_str(&self) -> (r: Option<&str>)
            ensures match r { Some(s) => self.utf8() == Some(s@), None => self.utf8() is None }
        { unimplemented!() }
    }
}
