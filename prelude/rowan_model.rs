// ---------------------------------------------------------------------------------------------
// TRUSTED prelude: rowan_model.rs — the part of rowan 0.16 the parsers use, as a text model.
//
// GreenNodeBuilder (rowan/src/green/builder.rs): `token` appends a leaf, `start_node` opens a node,
// `finish_node` pops one (`parents.pop().unwrap()`), `finish` asserts exactly one finished top-level
// element and that it is a node. The text of a node is the concatenation of the texts of its leaves
// in order, so the text of the finished root is the concatenation of all `token` texts.
// The unit must define the enum `SyntaxKind`; the round trip Lang::kind_to_raw / kind_from_raw
// (an unsafe transmute in the repository) is assumed to be the identity on it.
// ---------------------------------------------------------------------------------------------
pub mod rowan {
    use super::*;

    #[verifier::external_body]
    pub struct SyntaxKind { k: u16 }
    impl SyntaxKind {
        /// the unit's kind this raw kind was made from
        pub uninterp spec fn of(&self) -> super::SyntaxKind;
    }

    pub struct BState {
        /// number of open nodes
        pub depth: nat,
        /// text of all tokens so far
        pub text: Seq<char>,
        /// finished top-level nodes
        pub tops: nat,
        /// kind of the first top-level node
        pub root_kind: Option<super::SyntaxKind>,
    }

    #[verifier::external_body]
    pub struct GreenNodeBuilder { _p: () }

    #[verifier::external_body]
    pub struct GreenNode { _p: () }

    impl GreenNode {
        pub uninterp spec fn text(&self) -> Seq<char>;
        pub uninterp spec fn kind(&self) -> super::SyntaxKind;

        #[verifier::external_body]
        pub fn clone(&self) -> (r: Self)
            ensures r == *self
        { unimplemented!() }
    }

    impl GreenNodeBuilder {
        pub uninterp spec fn view(&self) -> BState;

        #[verifier::external_body]
        pub fn new() -> (r: Self)
            ensures r@ == (BState { depth: 0, text: Seq::empty(), tops: 0, root_kind: None })
        { unimplemented!() }

        #[verifier::external_body]
        pub fn start_node(&mut self, kind: SyntaxKind)
            ensures final(self)@ == (BState {
                depth: old(self)@.depth + 1,
                root_kind: if old(self)@.depth == 0 && old(self)@.tops == 0 { Some(kind.of()) } else { old(self)@.root_kind },
                ..old(self)@ })
        { unimplemented!() }

        /// a token outside any node can never be part of a tree accepted by `finish`
        #[verifier::external_body]
        pub fn token(&mut self, kind: SyntaxKind, text: &str)
            requires old(self)@.depth > 0
            ensures final(self)@ == (BState { text: old(self)@.text + text@, ..old(self)@ })
        { unimplemented!() }

        #[verifier::external_body]
        pub fn finish_node(&mut self)
            requires old(self)@.depth > 0
            ensures final(self)@ == (BState {
                depth: (old(self)@.depth - 1) as nat,
                tops: if old(self)@.depth == 1 { old(self)@.tops + 1 } else { old(self)@.tops },
                ..old(self)@ })
        { unimplemented!() }

        #[verifier::external_body]
        pub fn finish(self) -> (r: GreenNode)
            requires self@.depth == 0, self@.tops == 1
            ensures r.text() == self@.text, Some(r.kind()) == self@.root_kind
        { unimplemented!() }
    }

    /// rowan::SyntaxNode<Lang> (R-type-map drops the language parameter)
    #[verifier::external_body]
    pub struct SyntaxNode { _p: () }

    #[verifier::external_body]
    pub struct SyntaxText { _p: () }

    impl SyntaxText {
        pub uninterp spec fn view(&self) -> Seq<char>;

        /// ToString through Display
        #[verifier::external_body]
        pub fn to_string(&self) -> (r: String)
            ensures r@ == self@
        { unimplemented!() }
    }

    impl SyntaxNode {
        /// text of the subtree
        pub uninterp spec fn text_spec(&self) -> Seq<char>;
        pub uninterp spec fn kind_spec(&self) -> super::SyntaxKind;

        #[verifier::external_body]
        pub fn new_root(g: GreenNode) -> (r: Self)
            ensures r.text_spec() == g.text(), r.kind_spec() == g.kind()
        { unimplemented!() }

        #[verifier::external_body]
        pub fn new_root_mut(g: GreenNode) -> (r: Self)
            ensures r.text_spec() == g.text(), r.kind_spec() == g.kind()
        { unimplemented!() }

        #[verifier::external_body]
        pub fn kind(&self) -> (r: super::SyntaxKind)
            ensures r == self.kind_spec()
        { unimplemented!() }

        #[verifier::external_body]
        pub fn text(&self) -> (r: SyntaxText)
            ensures r@ == self.text_spec()
        { unimplemented!() }
    }
}
use rowan::{GreenNode, GreenNodeBuilder};

impl VxDisplay for rowan::SyntaxText {
    open spec fn display_spec(&self) -> Seq<char> { self@ }
}

/// R-method-map: `kind.into()` (impl From<SyntaxKind> for rowan::SyntaxKind) => vx_kind_into(kind)
#[verifier::external_body]
pub fn vx_kind_into(k: SyntaxKind) -> (r: rowan::SyntaxKind)
    ensures r.of() == k
{ unimplemented!() }
