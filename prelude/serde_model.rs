// ---------------------------------------------------------------------------------------------
// TRUSTED prelude: serde_model.rs - the iterator chains of the custom (de)serialisers of C16 (R-chain targets) and
// `[String]::join`. Each contract is the std meaning of that exact chain over the defined functions
// split_char / ws_tokens (strext_model.rs), drop_empty / lines_spec (units/common/wordlist.rs), join_seqs (join_model.rs).
// ---------------------------------------------------------------------------------------------
/// `s.split('\n').filter(|x| !x.is_empty()).map(|x| x.to_string()).collect()`
#[verifier::external_body]
pub fn vx_split_nl_nonempty_strings(s: &str) -> (r: Vec<String>)
    ensures strings_view(r@) == drop_empty(split_char(s@, '\n'))
{ unimplemented!() }
/// `s.lines().map(|x| x.to_string()).collect()`
#[verifier::external_body]
pub fn vx_lines_strings(s: &str) -> (r: Vec<String>)
    ensures strings_view(r@) == lines_spec(s@)
{ unimplemented!() }
/// `v.join(sep)` on a slice of Strings
#[verifier::external_body]
pub fn vx_slice_join(v: &[String], sep: &str) -> (r: String)
    ensures r@ == join_seqs(strs_view(v@), sep@)
{ unimplemented!() }
