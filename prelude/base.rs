// ---------------------------------------------------------------------------------------------
// TRUSTED prelude: base.rs — targets of the macro rewrite rules (R-fmt, R-panic, R-assert).
// ---------------------------------------------------------------------------------------------

/// R-fmt: `format!(..)` on error paths. The *text* of error messages is not modelled.
#[verifier::external_body]
pub fn vx_opaque_string() -> (r: String)
{ String::new() }

/// R-panic: `panic!()`, `todo!()`, `unimplemented!()`: reaching one is a failed obligation.
#[verifier::external_body]
pub fn vx_panic() -> !
    requires false
{ panic!() }

/// R-panic: `unreachable!()`.
#[verifier::external_body]
pub fn vx_unreachable() -> !
    requires false
{ unreachable!() }

/// R-assert: `assert!(c)`, `assert_eq!(a, b)`: a false condition is a panic.
#[verifier::external_body]
pub fn vx_assert(c: bool)
    requires c
{ assert!(c) }

/// TRUSTED (meta-assumption made explicit): executable Rust without I/O, randomness or address
/// observation is deterministic, so an observable of a call's result is a mathematical function of
/// the call's arguments. `det_nat(tag, input)` names that function for the call site `tag`.
/// Sound only when `observed` really is computed from `input` alone by the tagged call.
pub uninterp spec fn det_nat(tag: int, input: Seq<char>) -> nat;

#[verifier::external_body]
pub proof fn axiom_exec_deterministic(tag: int, input: Seq<char>, observed: nat)
    ensures observed == det_nat(tag, input)
{
}

/// stand-in for error payload types of other crates (never inspected by the extracted code)
pub struct VxOpaqueErr;
