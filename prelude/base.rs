// ---------------------------------------------------------------------------------------------
// TRUSTED prelude: base.rs — targets of the macro rewrite rules (R-fmt, R-panic, R-assert).
// ---------------------------------------------------------------------------------------------

/// R-fmt: `format!(..)` on error paths. The *text* of error messages is not modelled.
#[verifier::external_body]
pub fn vx_opaque_string() -> (r: String)
{ String::new() }

/// R-panic: `panic!()`, `todo!()`, `unimplemented!()`: reaching one is a failed obligation.
#[verifier::external_body]
pub fn vx_panic() -> !
    requires false
{ panic!() }

/// R-panic: `unreachable!()`.
#[verifier::external_body]
pub fn vx_unreachable() -> !
    requires false
{ unreachable!() }

/// R-assert: `assert!(c)`, `assert_eq!(a, b)`: a false condition is a panic.
#[verifier::external_body]
pub fn vx_assert(c: bool)
    requires c
{ assert!(c) }
