// ---------------------------------------------------------------------------------------------
// TRUSTED prelude: strext_model.rs — further `str` methods, as methods of an extension trait so that
// the default rename rule (R-std-rename: `.trim()` => `.vx_trim()`, ...) is type-directed: on a
// receiver that is not a str the renamed call does not resolve and the unit is reported undecided.
// Contracts are first-order statements over Seq<char> from the std documentation; the spec functions
// are *defined* (trim = strip chars with the Unicode White_Space property from both ends, ...).
// ---------------------------------------------------------------------------------------------

/// char::is_whitespace: the Unicode White_Space property
pub open spec fn is_unicode_ws(c: char) -> bool {
    let u = c as u32;
    (0x09 <= u && u <= 0x0d) || u == 0x20 || u == 0x85 || u == 0xa0 || u == 0x1680
        || (0x2000 <= u && u <= 0x200a) || u == 0x2028 || u == 0x2029 || u == 0x202f || u == 0x205f || u == 0x3000
}

pub open spec fn trim_start_spec(s: Seq<char>) -> Seq<char>
    decreases s.len()
{
    if s.len() > 0 && is_unicode_ws(s[0]) { trim_start_spec(s.skip(1)) } else { s }
}
pub open spec fn trim_end_spec(s: Seq<char>) -> Seq<char>
    decreases s.len()
{
    if s.len() > 0 && is_unicode_ws(s.last()) { trim_end_spec(s.drop_last()) } else { s }
}
pub open spec fn trim_spec(s: Seq<char>) -> Seq<char> { trim_end_spec(trim_start_spec(s)) }

pub open spec fn is_suffix(p: Seq<char>, s: Seq<char>) -> bool {
    p.len() <= s.len() && s.skip(s.len() - p.len()) == p
}

/// the patterns used by the repository: a char or a string literal (same as strops_model::VxPattern)
pub trait VxPat {
    spec fn pat_seq(&self) -> Seq<char>;
}
impl VxPat for char {
    open spec fn pat_seq(&self) -> Seq<char> { seq![*self] }
}
impl VxPat for &str {
    open spec fn pat_seq(&self) -> Seq<char> { self@ }
}
impl VxPat for &String {
    open spec fn pat_seq(&self) -> Seq<char> { self@ }
}

pub trait VxStrExt {
    spec fn vx_view(&self) -> Seq<char>;
    fn vx_trim(&self) -> (r: &str)
        ensures r@ == trim_spec(self.vx_view());
    fn vx_trim_start(&self) -> (r: &str)
        ensures r@ == trim_start_spec(self.vx_view());
    fn vx_trim_end(&self) -> (r: &str)
        ensures r@ == trim_end_spec(self.vx_view());
    fn vx_ends_with<P: VxPat>(&self, p: P) -> (r: bool)
        ensures r == is_suffix(p.pat_seq(), self.vx_view());
    fn vx_starts_with<P: VxPat>(&self, p: P) -> (r: bool)
        ensures r == (p.pat_seq().len() <= self.vx_view().len() && self.vx_view().take(p.pat_seq().len() as int) == p.pat_seq());
    fn vx_strip_suffix<P: VxPat>(&self, p: P) -> (r: Option<&str>)
        ensures
            match r {
                Some(rest) => is_suffix(p.pat_seq(), self.vx_view()) && rest@ == self.vx_view().take(self.vx_view().len() - p.pat_seq().len()),
                None => !is_suffix(p.pat_seq(), self.vx_view()),
            };
    fn vx_eq_ignore_ascii_case(&self, other: &str) -> (r: bool)
        ensures r == (ascii_lower_seq(self.vx_view()) == ascii_lower_seq(other@));
}

pub open spec fn ascii_lower(c: char) -> char {
    if 'A' <= c && c <= 'Z' { ((c as u32 + 32) as u8) as char } else { c }
}
pub open spec fn ascii_lower_seq(s: Seq<char>) -> Seq<char> {
    s.map_values(|c: char| ascii_lower(c))
}

impl VxStrExt for str {
    open spec fn vx_view(&self) -> Seq<char> { self@ }
    #[verifier::external_body]
    fn vx_trim(&self) -> (r: &str) { self.trim() }
    #[verifier::external_body]
    fn vx_trim_start(&self) -> (r: &str) { self.trim_start() }
    #[verifier::external_body]
    fn vx_trim_end(&self) -> (r: &str) { self.trim_end() }
    #[verifier::external_body]
    fn vx_ends_with<P: VxPat>(&self, p: P) -> (r: bool) { unimplemented!() }
    #[verifier::external_body]
    fn vx_starts_with<P: VxPat>(&self, p: P) -> (r: bool) { unimplemented!() }
    #[verifier::external_body]
    fn vx_strip_suffix<P: VxPat>(&self, p: P) -> (r: Option<&str>) { unimplemented!() }
    #[verifier::external_body]
    fn vx_eq_ignore_ascii_case(&self, other: &str) -> (r: bool) { self.eq_ignore_ascii_case(other) }
}
