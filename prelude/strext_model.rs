// ---------------------------------------------------------------------------------------------
// TRUSTED prelude: strext_model.rs — further `str` methods, as methods of an extension trait so that
// the default rename rule (R-std-rename: `.trim()` => `.vx_trim()`, ...) is type-directed: on a
// receiver that is not a str the renamed call does not resolve and the unit is reported undecided.
// Contracts are first-order statements over Seq<char> from the std documentation; the spec functions
// are *defined* (trim = strip chars with the Unicode White_Space property from both ends, ...).
// ---------------------------------------------------------------------------------------------

/// char::is_whitespace: the Unicode White_Space property
pub open spec fn is_unicode_ws(c: char) -> bool {
    let u = c as u32;
    (0x09 <= u && u <= 0x0d) || u == 0x20 || u == 0x85 || u == 0xa0 || u == 0x1680
        || (0x2000 <= u && u <= 0x200a) || u == 0x2028 || u == 0x2029 || u == 0x202f || u == 0x205f || u == 0x3000
}

pub open spec fn trim_start_spec(s: Seq<char>) -> Seq<char>
    decreases s.len()
{
    if s.len() > 0 && is_unicode_ws(s[0]) { trim_start_spec(s.skip(1)) } else { s }
}
pub open spec fn trim_end_spec(s: Seq<char>) -> Seq<char>
    decreases s.len()
{
    if s.len() > 0 && is_unicode_ws(s.last()) { trim_end_spec(s.drop_last()) } else { s }
}
pub open spec fn trim_spec(s: Seq<char>) -> Seq<char> { trim_end_spec(trim_start_spec(s)) }

pub open spec fn is_suffix(p: Seq<char>, s: Seq<char>) -> bool {
    p.len() <= s.len() && s.skip(s.len() - p.len()) == p
}

/// the patterns used by the repository: a char or a string literal (same as strops_model::VxPattern)
pub trait VxPat {
    spec fn pat_seq(&self) -> Seq<char>;
}
impl VxPat for char {
    open spec fn pat_seq(&self) -> Seq<char> { seq![*self] }
}
impl VxPat for &str {
    open spec fn pat_seq(&self) -> Seq<char> { self@ }
}
impl VxPat for &String {
    open spec fn pat_seq(&self) -> Seq<char> { self@ }
}

pub trait VxStrExt {
    spec fn vx_view(&self) -> Seq<char>;
    fn vx_trim(&self) -> (r: &str)
        ensures r@ == trim_spec(self.vx_view());
    fn vx_trim_start(&self) -> (r: &str)
        ensures r@ == trim_start_spec(self.vx_view());
    fn vx_trim_end(&self) -> (r: &str)
        ensures r@ == trim_end_spec(self.vx_view());
    fn vx_ends_with<P: VxPat>(&self, p: P) -> (r: bool)
        ensures r == is_suffix(p.pat_seq(), self.vx_view());
    fn vx_starts_with<P: VxPat>(&self, p: P) -> (r: bool)
        ensures r == (p.pat_seq().len() <= self.vx_view().len() && self.vx_view().take(p.pat_seq().len() as int) == p.pat_seq());
    fn vx_strip_suffix<P: VxPat>(&self, p: P) -> (r: Option<&str>)
        ensures
            match r {
                Some(rest) => is_suffix(p.pat_seq(), self.vx_view()) && rest@ == self.vx_view().take(self.vx_view().len() - p.pat_seq().len()),
                None => !is_suffix(p.pat_seq(), self.vx_view()),
            };
    fn vx_eq_ignore_ascii_case(&self, other: &str) -> (r: bool)
        ensures r == (ascii_lower_seq(self.vx_view()) == ascii_lower_seq(other@));
}

pub open spec fn ascii_lower(c: char) -> char {
    if 'A' <= c && c <= 'Z' { ((c as u32 + 32) as u8) as char } else { c }
}
pub open spec fn ascii_lower_seq(s: Seq<char>) -> Seq<char> {
    s.map_values(|c: char| ascii_lower(c))
}

impl VxStrExt for str {
    open spec fn vx_view(&self) -> Seq<char> { self@ }
    #[verifier::external_body]
    fn vx_trim(&self) -> (r: &str) { self.trim() }
    #[verifier::external_body]
    fn vx_trim_start(&self) -> (r: &str) { self.trim_start() }
    #[verifier::external_body]
    fn vx_trim_end(&self) -> (r: &str) { self.trim_end() }
    #[verifier::external_body]
    fn vx_ends_with<P: VxPat>(&self, p: P) -> (r: bool) { unimplemented!() }
    #[verifier::external_body]
    fn vx_starts_with<P: VxPat>(&self, p: P) -> (r: bool) { unimplemented!() }
    #[verifier::external_body]
    fn vx_strip_suffix<P: VxPat>(&self, p: P) -> (r: Option<&str>) { unimplemented!() }
    #[verifier::external_body]
    fn vx_eq_ignore_ascii_case(&self, other: &str) -> (r: bool) { self.eq_ignore_ascii_case(other) }
}

// ---- whitespace / char splitting -----------------------------------------------------------------

/// length of the maximal prefix of s whose chars satisfy p
pub open spec fn prefix_while(s: Seq<char>, p: spec_fn(char) -> bool) -> int
    decreases s.len()
{
    if s.len() > 0 && p(s[0]) { 1 + prefix_while(s.skip(1), p) } else { 0 }
}

/// str::split_whitespace: the maximal runs of non-whitespace characters, in order
pub open spec fn ws_tokens(s: Seq<char>) -> Seq<Seq<char>>
    decreases s.len()
{
    let t = trim_start_spec(s);
    if t.len() == 0 || t.len() > s.len() { Seq::empty() }
    else {
        let n = prefix_while(t, |c: char| !is_unicode_ws(c));
        if n <= 0 || n > t.len() { Seq::empty() } else { seq![t.take(n)] + ws_tokens(t.skip(n)) }
    }
}

/// str::split(c): the pieces between occurrences of c (always at least one piece)
pub open spec fn split_char(s: Seq<char>, c: char) -> Seq<Seq<char>>
    decreases s.len()
{
    let i = find_char(s, c);
    if i < 0 || i >= s.len() { seq![s] } else { seq![s.take(i)] + split_char(s.skip(i + 1), c) }
}
/// index of the first occurrence of c in s, or -1
pub open spec fn find_char(s: Seq<char>, c: char) -> int
    decreases s.len()
{
    if s.len() == 0 { -1 } else if s[0] == c { 0 } else { let r = find_char(s.skip(1), c); if r < 0 { -1 } else { r + 1 } }
}

pub open spec fn strings_view(v: Seq<String>) -> Seq<Seq<char>> { v.map_values(|x: String| x@) }

/// R-chain: `s.split_whitespace().map(|x| x.to_string()).collect()`
#[verifier::external_body]
pub fn vx_split_ws_strings(s: &str) -> (r: Vec<String>)
    ensures strings_view(r@) == ws_tokens(s@)
{ unimplemented!() }

/// R-chain: `s.split(c).map(|x| x.to_string()).collect()`
#[verifier::external_body]
pub fn vx_split_char_strings(s: &str, c: char) -> (r: Vec<String>)
    ensures strings_view(r@) == split_char(s@, c)
{ unimplemented!() }

/// `str::split_whitespace()` as the sequence of tokens not yet yielded (R-method-map)
#[verifier::external_body]
pub struct VxSplitWs<'a> { it: core::str::SplitWhitespace<'a> }
impl<'a> VxSplitWs<'a> {
    pub uninterp spec fn view(&self) -> Seq<Seq<char>>;
    #[verifier::external_body]
    pub fn next(&mut self) -> (r: Option<&'a str>)
        ensures
            old(self)@.len() == 0 ==> r is None && final(self)@ == old(self)@,
            old(self)@.len() > 0 ==> r is Some && r->Some_0@ == old(self)@[0] && final(self)@ == old(self)@.skip(1),
    { unimplemented!() }
}
#[verifier::external_body]
pub fn vx_split_whitespace<'a>(s: &'a str) -> (r: VxSplitWs<'a>)
    ensures r@ == ws_tokens(s@)
{ unimplemented!() }
