// ---------------------------------------------------------------------------------------------
// TRUSTED prelude: relacc_model.rs (unit relwrap, C13) - what the lossless Relation accessors report, as one abstract
// value per handle. `Relation::{name, archqual}` are proved against the tree in unit relationstree (C10);
// `version`, `architectures`, `profiles` (closures capturing `&mut`, filter_map over token kinds) are not within
// Verus' reach and stay assumed: the contracts in units/relwrap/contracts.vspec only say that each accessor returns
// its component of `acc(handle)`.
// ---------------------------------------------------------------------------------------------
/// R-method-map: `v.into_iter()` on a Vec => the elements in order
#[verifier::external_body]
pub fn vx_vec_into_iter<T>(v: Vec<T>) -> (r: VxIter<T>)
    ensures r@ == v@, r@.len() <= usize::MAX   // a Vec holds at most usize::MAX elements
{ unimplemented!() }
