// ---------------------------------------------------------------------------------------------
// TRUSTED prelude: relacc_model.rs (unit relwrap, C13) - what the lossless Relation accessors report, as one abstract
// value per handle. `Relation::{name, archqual}` are proved against the tree in unit relationstree (C10);
// `version`, `architectures`, `profiles` (closures capturing `&mut`, filter_map over token kinds) are not within
// Verus' reach and stay assumed: the contracts in units/relwrap/contracts.vspec only say that each accessor returns
// its component of `acc(handle)`.
// ---------------------------------------------------------------------------------------------
