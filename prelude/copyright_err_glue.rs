// ---------------------------------------------------------------------------------------------
// TRUSTED prelude: copyright_err_glue.rs — `impl From<deb822_lossless::ParseError> for lossless::Error`
// (debian-copyright/src/lossless.rs:158-162, a one-line constructor wrapper used by `?`). vstd attaches its
// own `from_spec` postcondition to every `From` impl, which this wrapper cannot state; it is taken as given.
// ---------------------------------------------------------------------------------------------
impl From<deb822_lossless::ParseError> for lossless::Error {
    #[verifier::external_body]
    fn from(e: deb822_lossless::ParseError) -> Self { lossless::Error::ParseError(e) }
}
